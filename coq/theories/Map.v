(* Map.v — L1: concrete model of HealSparseMap storage (healsparse/healSparseMap.py),
   generic in the cell type V.  Instantiations: plain numeric/bool maps (V = one number),
   wide masks (V = the row as an integer), record arrays (V = list of field values). *)
From HS Require Import Prelude Cov.

Section Map.
Variable V : Type.
Variable valid : V -> bool.      (* value != sentinel | primary != sentinel | any bit set *)
Variable dv : V.                 (* default of znth; irrelevant on well-formed states *)

Record smap := mkmap {
  nfine : Z;                     (* fine pixels per coverage pixel, 2^bit_shift *)
  idx : list Z;                  (* _cov_map._cov_index_map *)
  sp : list V;                   (* _sparse_map (rows for wide masks) *)
  blank : V;                     (* what make_empty filled the storage with *)
  cache : option Z               (* _n_valid *)
}.

Definition ncov (m : smap) : Z := zlen (idx m).
Definition npix (m : smap) : Z := ncov m * nfine m.
Definition covered (m : smap) (c : Z) : bool := cov_covered (nfine m) (idx m) c.
Definition off (m : smap) (c : Z) : Z := cov_off (nfine m) (idx m) c.
Definition ncovered (m : smap) : Z := zcount (covered m) (zrange 0 (ncov m)).

(* healSparseMap.py:902-907  index = pixel + cov_index[pixel >> bit_shift] *)
Definition cell (m : smap) (p : Z) : Z := p + znth 0 (idx m) (p / nfine m).
Definition read (m : smap) (p : Z) : V := znth dv (sp m) (cell m p).

(* healSparseMap.py:165-258 make_empty (storage part) *)
Definition make_empty (ncov0 nfine0 : Z) (bl : V) (cov_pixels : option (list Z)) : smap :=
  match cov_pixels with
  | None => mkmap nfine0 (cov_make_empty ncov0 nfine0) (zrepeat bl nfine0) bl None
  | Some ps => mkmap nfine0 (cov_make_from_pixels ncov0 nfine0 ps)
                     (zrepeat bl (nfine0 * (zlen ps + 1))) bl None
  end.

(* healSparseMap.py:408-432 _reserve_cov_pix: index replaced by the appended copy, storage
   resized in place and the tail filled with cell 0 *)
Definition reserve (m : smap) (new_cov : list Z) : smap :=
  let old := zlen (sp m) in
  mkmap (nfine m)
        (append_pixels (nfine m) old (idx m) new_cov)
        (sp m ++ zrepeat (znth dv (sp m) 0) (zlen new_cov * nfine m))
        (blank m) (cache m).

(* ---- update_values_pix (healSparseMap.py:475-676), after argument validation ---- *)
Inductive uop := URepl | UAdd | UOr | UAnd.

Variables (vadd vor vand : V -> V -> V).
Variable vzero : V.               (* the value 0 of the dtype *)
Variable is_sent : V -> bool.     (* cell == sentinel (plain maps) *)
Variable sent_nonzero : bool.     (* self._sentinel != 0 *)

Definition opfun (o : uop) : V -> V -> V :=
  match o with
  | URepl => fun _ v => v
  | UAdd => vadd
  | UOr => vor
  | UAnd => vand
  end.

(* ufunc.at / fancy assignment: sequential, left to right; out-of-range index = no-op
   (never happens on well-formed states) *)
Fixpoint at_fold (f : V -> V -> V) (l : list V) (ivs : list (Z * V)) : list V :=
  match ivs with
  | [] => l
  | (i, v) :: r => at_fold f (zupd l i (f (znth dv l i) v)) r
  end.

(* healSparseMap.py:637-639  sparse_map[indices[sparse_map[indices] == sentinel]] = 0 *)
Fixpoint zero_sent (l : list V) (is : list Z) : list V :=
  match is with
  | [] => l
  | i :: r => zero_sent (if is_sent (znth dv l i) then zupd l i vzero else l) r
  end.

(* healSparseMap.py:633-650 _do_operation_on_sparse_map *)
Definition do_op (o : uop) (l : list V) (ivs : list (Z * V)) : list V :=
  let l1 := match o with
            | UAdd => if sent_nonzero then zero_sent l (map fst ivs) else l
            | _ => l
            end in
  at_fold (opfun o) l1 ivs.

Definition pix_covered (m : smap) (pv : Z * V) : bool := covered m (fst pv / nfine m).
Definition to_cells (m : smap) (pvs : list (Z * V)) : list (Z * V) :=
  map (fun pv => (cell m (fst pv), snd pv)) pvs.

(* healSparseMap.py:664-666 new coverage pixels in ascending order (np.where of a flag array) *)
Definition new_cov_pixels (m : smap) (outcov : list (Z * V)) : list Z :=
  filter (fun c => existsb (fun pv => fst pv / nfine m =? c) outcov) (zrange 0 (ncov m)).

Definition set_sp (m : smap) (s : list V) : smap := mkmap (nfine m) (idx m) s (blank m) None.

(* healSparseMap.py:623-676: in-coverage write, then growth, then write into the new tail.
   (The code indexes the tail through a slice rebased by -oldsize; writing the grown array at
   the un-rebased indices is the same because every tail index is >= oldsize.) *)
Definition update (m : smap) (o : uop) (pvs : list (Z * V)) (no_append : bool) : smap :=
  let incov := filter (pix_covered m) pvs in
  let outcov := filter (fun pv => negb (pix_covered m pv)) pvs in
  let m1 := set_sp m (do_op o (sp m) (to_cells m incov)) in
  match outcov with
  | [] => m1
  | _ :: _ =>
    if no_append then m1
    else
      let m2 := reserve m1 (new_cov_pixels m1 outcov) in
      set_sp m2 (do_op o (sp m2) (to_cells m2 outcov))
  end.

(* ---- accounting (healSparseMap.py:1335-1354, 1385-1410, 989-1021) ---- *)

Definition valid_cells (m : smap) : list Z :=
  filter (fun i => valid (znth dv (sp m) i)) (zrange 0 (zlen (sp m))).

(* valid_pixels = i - idx[block_to_cov[(i // nfine) - 1]], storage order; None = IndexError *)
Fixpoint opt_map {A B} (f : A -> option B) (l : list A) : option (list B) :=
  match l with
  | [] => Some []
  | x :: t => match f x, opt_map f t with
              | Some y, Some r => Some (y :: r)
              | _, _ => None
              end
  end.

Definition pixel_of_cell_with (b2c : list Z) (m : smap) (i : Z) : option Z :=
  match cov_pixels_from_index_with b2c (nfine m) i with
  | Some c => Some (i - znth 0 (idx m) c)
  | None => None
  end.

Definition pixel_of_cell (m : smap) (i : Z) : option Z :=
  pixel_of_cell_with (block_to_cov (nfine m) (idx m)) m i.

Definition valid_pixels (m : smap) : option (list Z) :=
  let b2c := block_to_cov (nfine m) (idx m) in
  opt_map (pixel_of_cell_with b2c m) (valid_cells m).

Definition count_valid (m : smap) : Z := zcount valid (sp m).

(* n_valid with its memo (healSparseMap.py:1385-1410) *)
Definition n_valid (m : smap) : smap * Z :=
  match cache m with
  | Some n => (m, n)
  | None => let n := count_valid m in
            (mkmap (nfine m) (idx m) (sp m) (blank m) (Some n), n)
  end.

(* per-block counts: counts[b] = #valid cells of block b (b = 0 is the overflow block) *)
Definition block_count (m : smap) (b : Z) : Z :=
  zcount valid (zslice (sp m) (b * nfine m) ((b + 1) * nfine m)).

(* get_values_pix(valid_mask=True) *)
Definition valid_at (m : smap) (p : Z) : bool := valid (read m p).

(* valid_pixels_single_covpix (healSparseMap.py:1431-1468): storage slice of the block,
   indices mapped back through block_to_cov of the block start *)
Definition valid_pixels_covpix (m : smap) (c : Z) : option (list Z) :=
  if covered m c then
    let start := off m c in
    match cov_pixels_from_index (nfine m) (idx m) start with
    | Some c' =>
        Some (map (fun k => k - znth 0 (idx m) c' + start)
                  (filter (fun k => valid (znth dv (sp m) (start + k))) (zrange 0 (nfine m))))
    | None => None
    end
  else Some [].


(* coverage_map (healSparseMap.py:989-1021): per-block counts of valid cells; entry j+1 of the
   per-block counts is assigned to coverage pixel block_to_cov[j] (after the F26 repair; the
   pinned code paired block-order counts with ascending coverage pixels) *)
Fixpoint assign_counts (cov : list Z) (b2c : list Z) (counts : list Z) : list Z :=
  match b2c, counts with
  | c :: r, n :: t => assign_counts (zupd cov c n) r t
  | _, _ => cov
  end.

Definition nblocks (m : smap) : Z := zlen (sp m) / nfine m.

Definition block_counts (m : smap) : list Z := map (block_count m) (zrange 0 (nblocks m)).

Definition coverage_counts (m : smap) : list Z :=
  assign_counts (zrepeat 0 (ncov m)) (block_to_cov (nfine m) (idx m)) (tl (block_counts m)).

(* fracdet_map (healSparseMap.py:1035-1099): counts per group of r = nfine_per_frac cells, over the
   whole storage; the index is rebuilt from block_to_cov (after the F26 repair) *)
Definition group_counts (m : smap) (r : Z) : list Z :=
  map (fun g => zcount valid (zslice (sp m) (g * r) ((g + 1) * r))) (zrange 0 (zlen (sp m) / r)).

Definition fracdet_idx (m : smap) (r : Z) : list Z :=
  cov_make_from_pixels (ncov m) (nfine m / r) (block_to_cov (nfine m) (idx m)).

(* get_single_covpix_map (healSparseMap.py:1929-1973), covered branch *)
Definition single_covpix (m : smap) (c : Z) : smap :=
  mkmap (nfine m) (cov_make_from_pixels (ncov m) (nfine m) [c])
        (zslice (sp m) 0 (nfine m) ++ zslice (sp m) (off m c) (off m c + nfine m))
        (blank m) None.

(* ---- the published layout (docs/filespec.rst) as a boolean predicate ----
   [b2c] is the block -> coverage pixel table to be checked (the model's own, or the
   implementation's _block_to_cov_index when the predicate is used as a monitor). *)
Definition layoutb_with (b2c : list Z) (m : smap) : bool :=
  let nf := nfine m in
  let nc := ncov m in
  let k := ncovered m in
  (0 <? nf) &&
  (zlen (sp m) =? (k + 1) * nf) &&
  forallb (fun i => negb (valid (znth dv (sp m) i))) (zrange 0 nf) &&
  forallb (fun c => let o := off m c in
                    (o =? 0) || ((nf <=? o) && (o mod nf =? 0) && (o / nf <=? k)))
          (zrange 0 nc) &&
  (let offs := map (fun c => (c, off m c)) (zrange 0 nc) in
   forallb (fun co1 => forallb (fun co2 => (fst co1 =? fst co2) || negb (nf <=? snd co1) ||
                                           negb (snd co1 =? snd co2)) offs) offs) &&
  (zlen b2c =? k) &&
  forallb (fun c => negb (covered m c) || (znth (-1) b2c (off m c / nf - 1) =? c)) (zrange 0 nc).

Definition layoutb (m : smap) : bool := layoutb_with (block_to_cov (nfine m) (idx m)) m.

Variable veqb : V -> V -> bool.

(* layout + the overflow block still holds the blank value everywhere *)
Definition wfb (m : smap) : bool :=
  layoutb m && negb (valid (blank m)) &&
  forallb (fun i => veqb (znth dv (sp m) i) (blank m)) (zrange 0 (nfine m)).

End Map.

Arguments mkmap {V}.
Arguments nfine {V}.
Arguments idx {V}.
Arguments sp {V}.
Arguments blank {V}.
Arguments cache {V}.
