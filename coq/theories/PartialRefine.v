(* PartialRefine.v — abstraction-level form of the partial read (C03) and its congruence (C10): the
   abstraction of the map read with pixels=req is the restriction of the abstraction; content-equal
   files give content-equal partial reads. *)
From HS Require Import Prelude Cov Map Spec Ops Spec2 Params AtFold MapProofs UpdateProofs HistoryProofs
     LayoutProofs AccountProofs OpsProofs PartialProofs AbsRefine.

Section PartialRefine.
Variable P : params.
Notation V := (p_V P).
Notation dv := (p_dv P).
Notation wf := (wf P).
Notation read := (read V dv).
Notation abs := (abs V dv).

Theorem read_partial_refines (m m' : smap V) (req : list Z) :
  wf m -> read_partial V m req = Some m' -> abs m' = d_restrict V dv req (abs m).
Proof.
  intros W E. pose proof (wf_nf P m W) as Hnf. pose proof (npix_nonneg P m W) as Hnp.
  destruct (read_partial_spec P m m' req W E) as [W' [Np [R C]]].
  assert (Enf : nfine m' = nfine m).
  { unfold read_partial in E. destruct (filter _ _); [discriminate|]. injection E as <-. reflexivity. }
  assert (Ebl : blank m' = blank m).
  { unfold read_partial in E. destruct (filter _ _); [discriminate|]. injection E as <-. reflexivity. }
  assert (Enc : ncov V m' = ncov V m).
  { unfold Map.npix in Np. rewrite Enf in Np. nia. }
  unfold d_restrict. cbv zeta.
  change (abs m') with (mkd (nfine m') (map (read m') (zrange 0 (npix V m')))
                            (coverage_mask (nfine m') (idx m')) (blank m')).
  f_equal.
  - exact Enf.
  - rewrite Np, (d_npix_abs P m W).
    apply map_ext_in. intros p Hp. apply In_zrange in Hp.
    rewrite (R p Hp).
    change (d_nfine (abs m)) with (nfine m). change (d_blank (abs m)) with (blank m).
    change (dcov (abs m)) with (coverage_mask (nfine m) (idx m)).
    rewrite (d_read_abs' P) by exact Hp.
    assert (Hpc : 0 <= p / nfine m < ncov V m) by (apply (covpix_range P); assumption).
    rewrite (znth_coverage_mask P) by exact Hpc. reflexivity.
  - rewrite (d_ncov_abs P). unfold coverage_mask.
    change (zlen (idx m')) with (ncov V m'). rewrite Enc.
    apply map_ext_in. intros c Hc. apply In_zrange in Hc.
    change (cov_covered (nfine m') (idx m') c) with (covered V m' c).
    rewrite (C c Hc). change (dcov (abs m)) with (coverage_mask (nfine m) (idx m)).
    rewrite (znth_coverage_mask P) by exact Hc. reflexivity.
  - exact Ebl.
Qed.

(* two content-equal maps (files) give content-equal partial reads, and one is rejected iff the other is *)
Theorem read_partial_congruence (m1 m2 : smap V) (req : list Z) :
  wf m1 -> wf m2 -> abs m1 = abs m2 ->
  match read_partial V m1 req, read_partial V m2 req with
  | Some a, Some b => abs a = abs b
  | None, None => True
  | _, _ => False
  end.
Proof.
  intros W1 W2 E.
  assert (Hcov : forall c, 0 <= c < ncov V m1 -> covered V m1 c = covered V m2 c).
  { intros c Hc. rewrite <- (znth_coverage_mask P m1 c Hc).
    assert (Hc2 : 0 <= c < ncov V m2).
    { rewrite <- (d_ncov_abs P m1), E, (d_ncov_abs P m2) in Hc. exact Hc. }
    rewrite <- (znth_coverage_mask P m2 c Hc2).
    change (znth false (dcov (abs m1)) c = znth false (dcov (abs m2)) c). rewrite E. reflexivity. }
  assert (Enc : ncov V m1 = ncov V m2) by (rewrite <- (d_ncov_abs P m1), E; apply (d_ncov_abs P)).
  assert (Hsel : forall c, In c (selected P m1 req) <-> In c (selected P m2 req)).
  { intros c. rewrite !(In_selected P). split; intros [Hc [Hcv Hrq]].
    - split; [rewrite <- Enc; exact Hc|]. split; [rewrite <- Hcov by exact Hc; exact Hcv|exact Hrq].
    - split; [rewrite Enc; exact Hc|]. split; [rewrite Hcov by (rewrite Enc; exact Hc); exact Hcv|exact Hrq]. }
  destruct (read_partial V m1 req) as [a|] eqn:E1; destruct (read_partial V m2 req) as [b|] eqn:E2.
  - rewrite (read_partial_refines m1 a req W1 E1), (read_partial_refines m2 b req W2 E2), E. reflexivity.
  - apply (read_partial_none P) in E2.
    destruct (selected P m1 req) as [|c0 r0] eqn:F.
    + apply (read_partial_none P) in F. congruence.
    + assert (Hin : In c0 (selected P m2 req)) by (apply Hsel; left; reflexivity). rewrite E2 in Hin. destruct Hin.
  - apply (read_partial_none P) in E1.
    destruct (selected P m2 req) as [|c0 r0] eqn:F.
    + apply (read_partial_none P) in F. congruence.
    + assert (Hin : In c0 (selected P m1 req)) by (apply Hsel; left; reflexivity). rewrite E1 in Hin. destruct Hin.
  - exact I.
Qed.

End PartialRefine.
