(* MapProofs.v — the layout invariant [wf], its preservation by every storage operation of
   Map.v, and the refinement  abs (update m ...) = d_update (abs m) ...  (C01, C04). *)
From HS Require Import Prelude Cov Map Spec Params AtFold.

Section MapProofs.
Variable P : params.
Notation V := (p_V P).
Notation valid := (p_valid P).
Notation dv := (p_dv P).
Notation vadd := (p_vadd P).
Notation vor := (p_vor P).
Notation vand := (p_vand P).
Notation vzero := (p_vzero P).
Notation is_sent := (p_is_sent P).
Notation sent_nonzero := (p_sent_nonzero P).
Notation zero_not_sent := (p_zns P).

Notation smap := (smap V).
Notation ncov := (ncov V).
Notation npix := (npix V).
Notation covered := (covered V).
Notation off := (off V).
Notation ncovered := (ncovered V).
Notation cell := (cell V).
Notation read := (read V dv).
Notation do_op := (do_op V dv vadd vor vand vzero is_sent sent_nonzero).
Notation pt := (pt P).
Notation to_cells := (to_cells V).
Notation set_sp := (set_sp V).
Notation reserve := (reserve V dv).
Notation update := (update V dv vadd vor vand vzero is_sent sent_nonzero).

(* ---------- the invariant ---------- *)
Record wf (m : smap) : Prop := {
  wf_nf : 0 < nfine m;
  wf_len : zlen (sp m) = (ncovered m + 1) * nfine m;
  wf_over : forall i, 0 <= i < nfine m -> znth dv (sp m) i = blank m;
  wf_blank : valid (blank m) = false;
  wf_off : forall c, 0 <= c < ncov m ->
           off m c = 0 \/
           (nfine m <= off m c /\ off m c + nfine m <= zlen (sp m) /\ off m c mod nfine m = 0);
  wf_inj : forall c1 c2, 0 <= c1 < ncov m -> 0 <= c2 < ncov m ->
           covered m c1 = true -> off m c1 = off m c2 -> c1 = c2
}.

Lemma covered_iff m c : covered m c = true <-> nfine m <= off m c.
Proof. unfold Map.covered, cov_covered, Map.off. lia. Qed.

Lemma covered_false_iff m c : covered m c = false <-> off m c < nfine m.
Proof. unfold Map.covered, cov_covered, Map.off. lia. Qed.

Lemma ncovered_nonneg m : 0 <= ncovered m.
Proof. apply zcount_nonneg. Qed.

Lemma cell_eq m p : 0 < nfine m -> cell m p = off m (p / nfine m) + p mod nfine m.
Proof. intros H. unfold Map.cell, Map.off, cov_off. lia. Qed.

Lemma covpix_range m p : 0 < nfine m -> 0 <= p < npix m -> 0 <= p / nfine m < ncov m.
Proof.
  intros Hn [H0 H1]. unfold Map.npix in H1. split.
  - apply Z.div_pos; lia.
  - apply Z.div_lt_upper_bound; lia.
Qed.

Lemma cell_covered m p :
  wf m -> 0 <= p < npix m -> covered m (p / nfine m) = true ->
  nfine m <= cell m p < zlen (sp m).
Proof.
  intros W Hp Hc. pose proof (wf_nf m W) as Hn.
  pose proof (covpix_range m p Hn Hp) as Hr.
  rewrite cell_eq by exact Hn. apply covered_iff in Hc.
  destruct (wf_off m W _ Hr) as [H0|[H1 [H2 H3]]]; [lia|].
  pose proof (Z.mod_pos_bound p (nfine m) Hn). lia.
Qed.

Lemma cell_uncovered m p :
  wf m -> 0 <= p < npix m -> covered m (p / nfine m) = false ->
  cell m p = p mod nfine m /\ 0 <= cell m p < nfine m.
Proof.
  intros W Hp Hc. pose proof (wf_nf m W) as Hn.
  pose proof (covpix_range m p Hn Hp) as Hr.
  rewrite cell_eq by exact Hn. apply covered_false_iff in Hc.
  pose proof (Z.mod_pos_bound p (nfine m) Hn).
  destruct (wf_off m W _ Hr) as [H0|[H1 [H2 H3]]]; lia.
Qed.

Lemma cell_range m p : wf m -> 0 <= p < npix m -> 0 <= cell m p < zlen (sp m).
Proof.
  intros W Hp. pose proof (wf_nf m W) as Hn.
  destruct (covered m (p / nfine m)) eqn:Hc.
  - pose proof (cell_covered m p W Hp Hc). lia.
  - pose proof (cell_uncovered m p W Hp Hc). pose proof (wf_len m W). pose proof (ncovered_nonneg m). nia.
Qed.

(* distinct sky pixels never share a storage cell (C04, last clause) *)
Lemma cell_inj m p q :
  wf m -> 0 <= p < npix m -> 0 <= q < npix m ->
  covered m (p / nfine m) = true -> cell m p = cell m q -> p = q.
Proof.
  intros W Hp Hq Hc E. pose proof (wf_nf m W) as Hn.
  destruct (covered m (q / nfine m)) eqn:Hcq.
  - pose proof (covpix_range m p Hn Hp) as Hrp. pose proof (covpix_range m q Hn Hq) as Hrq.
    rewrite !cell_eq in E by exact Hn.
    pose proof (Z.mod_pos_bound p (nfine m) Hn) as Bp.
    pose proof (Z.mod_pos_bound q (nfine m) Hn) as Bq.
    apply covered_iff in Hc. apply covered_iff in Hcq.
    destruct (wf_off m W _ Hrp) as [H0|[_ [_ Mp]]]; [lia|].
    destruct (wf_off m W _ Hrq) as [H0|[_ [_ Mq]]]; [lia|].
    apply Z.mod_divide in Mp; [|lia]. apply Z.mod_divide in Mq; [|lia].
    destruct Mp as [kp Ep]. destruct Mq as [kq Eq].
    assert (kp = kq /\ p mod nfine m = q mod nfine m) as [Ek Em].
    { apply (Z.div_mod_unique (nfine m)); [lia|lia|]. rewrite Ep, Eq in E. lia. }
    assert (p / nfine m = q / nfine m) as Ec.
    { apply (wf_inj m W); try assumption. apply covered_iff; lia. rewrite Ep, Eq, Ek. reflexivity. }
    rewrite (Z.div_mod p (nfine m)) by lia. rewrite (Z.div_mod q (nfine m)) by lia. rewrite Ec, Em. reflexivity.
  - pose proof (cell_covered m p W Hp Hc). pose proof (cell_uncovered m q W Hq Hcq). lia.
Qed.

(* never written pixels of an uncovered coverage pixel read as the blank value *)
Lemma read_uncovered m p :
  wf m -> 0 <= p < npix m -> covered m (p / nfine m) = false -> read m p = blank m.
Proof.
  intros W Hp Hc. unfold Map.read.
  destruct (cell_uncovered m p W Hp Hc) as [_ B]. apply (wf_over m W); exact B.
Qed.

(* ---------- in-coverage write ---------- *)
Definition incov_write (m : smap) (o : uop) (pvs : list (Z * V)) : smap :=
  set_sp m (do_op o (sp m) (to_cells m pvs)).

Definition all_covered (m : smap) (pvs : list (Z * V)) : Prop :=
  forall pv, In pv pvs -> 0 <= fst pv < npix m /\ covered m (fst pv / nfine m) = true.

Lemma to_cells_ge m pvs :
  wf m -> all_covered m pvs -> forall iv, In iv (to_cells m pvs) -> nfine m <= fst iv.
Proof.
  intros W H iv Hin. unfold Map.to_cells in Hin. apply in_map_iff in Hin.
  destruct Hin as [pv [<- Hpv]]. cbn [fst]. destruct (H pv Hpv) as [Hr Hc].
  pose proof (cell_covered m _ W Hr Hc). lia.
Qed.

Lemma incov_write_wf m o pvs : wf m -> all_covered m pvs -> wf (incov_write m o pvs).
Proof.
  intros W H. unfold incov_write, Map.set_sp.
  constructor; cbn [nfine idx sp blank].
  - exact (wf_nf m W).
  - rewrite zlen_do_op. exact (wf_len m W).
  - intros i Hi. rewrite do_op_pointwise by (try exact zero_not_sent; pose proof (wf_len m W); pose proof (ncovered_nonneg m); nia).
    rewrite vals_at_none.
    + rewrite pt_nil. apply (wf_over m W); exact Hi.
    + intros iv Hin. pose proof (to_cells_ge m pvs W H iv Hin). lia.
  - exact (wf_blank m W).
  - rewrite zlen_do_op. exact (wf_off m W).
  - exact (wf_inj m W).
Qed.

Lemma incov_write_read m o pvs q :
  wf m -> all_covered m pvs -> 0 <= q < npix m ->
  read (incov_write m o pvs) q = pt o (read m q) (vals_at V q pvs).
Proof.
  intros W H Hq. unfold Map.read, incov_write, Map.set_sp. cbn [sp].
  change (Map.cell V (mkmap (nfine m) (idx m) (do_op o (sp m) (to_cells m pvs)) (blank m) None) q)
    with (cell m q).
  rewrite do_op_pointwise by (try exact zero_not_sent; apply cell_range; assumption).
  f_equal. unfold Map.to_cells. apply (vals_at_map V (cell m)).
  intros pv Hin E. destruct (H pv Hin) as [Hr Hc]. apply (cell_inj m); assumption.
Qed.

(* ---------- append_pixels / reserve ---------- *)
Lemma zlen_append_from nf size idx ps j : zlen (append_from nf size idx ps j) = zlen idx.
Proof.
  revert idx j; induction ps as [|p r IH]; intros idx j; cbn [append_from]; [reflexivity|].
  rewrite IH, zlen_zupd. reflexivity.
Qed.

Lemma append_from_other nf size idx ps j c :
  ~ In c ps -> znth 0 (append_from nf size idx ps j) c = znth 0 idx c.
Proof.
  revert idx j; induction ps as [|p r IH]; intros idx j H; cbn [append_from]; [reflexivity|].
  rewrite IH by (intro; apply H; right; assumption).
  apply znth_zupd_other. intro; apply H; left; assumption.
Qed.

Lemma append_from_at nf size idx ps j k :
  NoDup ps -> 0 <= k < zlen ps -> 0 <= znth 0 ps k < zlen idx ->
  znth 0 (append_from nf size idx ps j) (znth 0 ps k) =
  (j + k) * nf + size - znth 0 ps k * nf.
Proof.
  revert idx j k; induction ps as [|p r IH]; intros idx j k ND Hk Hc.
  - rewrite zlen_nil in Hk; lia.
  - rewrite zlen_cons in Hk. inversion ND as [|? ? Hnin ND']; subst.
    cbn [append_from]. rewrite znth_cons in *.
    destruct (k =? 0) eqn:E.
    + rewrite append_from_other by exact Hnin. rewrite znth_zupd_same by exact Hc.
      assert (k = 0) by lia; subst k. lia.
    + rewrite IH; [lia|exact ND'|lia|rewrite zlen_zupd; exact Hc].
Qed.

(* membership with its position *)
Lemma In_pos (ps : list Z) c : In c ps -> exists k, 0 <= k < zlen ps /\ znth 0 ps k = c.
Proof. apply In_znth. Qed.

Definition new_ok (m : smap) (new : list Z) : Prop :=
  NoDup new /\ forall c, In c new -> 0 <= c < ncov m /\ covered m c = false.

Lemma reserve_off_new m new k :
  new_ok m new -> 0 <= k < zlen new ->
  off (reserve m new) (znth 0 new k) = zlen (sp m) + k * nfine m.
Proof.
  intros [ND Hn] Hk. unfold Map.off, cov_off, Map.reserve. cbn [nfine idx].
  unfold append_pixels. rewrite append_from_at; [lia|exact ND|exact Hk|].
  apply Hn. apply znth_In. exact Hk.
Qed.

Lemma reserve_off_old m new c :
  ~ In c new -> off (reserve m new) c = off m c.
Proof.
  intros H. unfold Map.off, cov_off, Map.reserve. cbn [nfine idx].
  unfold append_pixels. rewrite append_from_other by exact H. reflexivity.
Qed.

Lemma ncov_reserve m new : ncov (reserve m new) = ncov m.
Proof. unfold Map.ncov, Map.reserve. cbn [idx]. unfold append_pixels. apply zlen_append_from. Qed.

Lemma existsb_eqb_In c (l : list Z) : existsb (Z.eqb c) l = true <-> In c l.
Proof.
  rewrite existsb_exists. split.
  - intros [x [Hin E]]. assert (c = x) by lia. subst; exact Hin.
  - intros H. exists c. split; [exact H|lia].
Qed.

Lemma reserve_covered m new c :
  wf m -> new_ok m new -> 0 <= c < ncov m ->
  covered (reserve m new) c = covered m c || existsb (Z.eqb c) new.
Proof.
  intros W NO Hc. pose proof (wf_nf m W) as Hnf.
  destruct (existsb (Z.eqb c) new) eqn:E.
  - apply existsb_eqb_In in E. destruct (In_pos new c E) as [k [Hk Ek]].
    rewrite orb_true_r. apply covered_iff. subst c.
    rewrite reserve_off_new by assumption. unfold Map.reserve; cbn [nfine].
    pose proof (wf_len m W). pose proof (ncovered_nonneg m). nia.
  - rewrite orb_false_r.
    assert (~ In c new) as Hn by (intro Hin; apply existsb_eqb_In in Hin; congruence).
    unfold Map.covered, cov_covered.
    change (cov_off (nfine (reserve m new)) (idx (reserve m new)) c) with (off (reserve m new) c).
    rewrite reserve_off_old by exact Hn. reflexivity.
Qed.

(* counting lemmas for the number of covered pixels *)
Lemma zcount_eqb_one (x : Z) (l : list Z) : NoDup l -> In x l -> zcount (Z.eqb x) l = 1.
Proof.
  induction l as [|y t IH]; intros ND Hin; [contradiction|].
  inversion ND as [|? ? Hnin ND']; subst. rewrite zcount_cons.
  destruct Hin as [->|Hin].
  - rewrite Z.eqb_refl.
    assert (zcount (Z.eqb x) t = 0) as ->; [|lia].
    clear IH ND ND'. induction t as [|z u IHu]; [reflexivity|]. rewrite zcount_cons.
    destruct (x =? z) eqn:E.
    + exfalso. apply Hnin. left. lia.
    + rewrite IHu; [lia|]. intro H; apply Hnin; right; exact H.
  - destruct (x =? y) eqn:E.
    + exfalso. assert (x = y) by lia. subst. contradiction.
    + rewrite IH by assumption. lia.
Qed.

Lemma zcount_members (new l : list Z) :
  NoDup l -> NoDup new -> (forall c, In c new -> In c l) ->
  zcount (fun c => existsb (Z.eqb c) new) l = zlen new.
Proof.
  intros NDl. induction new as [|x r IH]; intros ND Hsub.
  - cbn [existsb]. clear. induction l as [|y t IHt]; [reflexivity|]. rewrite zcount_cons, IHt. reflexivity.
  - inversion ND as [|? ? Hnin ND']; subst. rewrite zlen_cons.
    rewrite <- IH; [|exact ND'|intros c Hc; apply Hsub; right; exact Hc].
    rewrite <- (zcount_eqb_one x l NDl) by (apply Hsub; left; reflexivity).
    clear IH Hsub NDl. induction l as [|y t IHt]; [reflexivity|].
    rewrite !zcount_cons, IHt. cbn [existsb].
    destruct (y =? x) eqn:E1.
    + assert (y = x) by lia; subst y. rewrite Z.eqb_refl.
      destruct (existsb (Z.eqb x) r) eqn:E2; [apply existsb_eqb_In in E2; contradiction|]. cbn [orb]. lia.
    + rewrite (Z.eqb_sym x y), E1. cbn [orb]. destruct (existsb (Z.eqb y) r); lia.
Qed.

Lemma zcount_disjoint_or (f g : Z -> bool) (l : list Z) :
  (forall c, In c l -> f c = true -> g c = false) ->
  zcount (fun c => f c || g c) l = zcount f l + zcount g l.
Proof.
  induction l as [|y t IH]; intros H; [reflexivity|].
  rewrite !zcount_cons, IH by (intros c Hc; apply H; right; exact Hc).
  destruct (f y) eqn:Ef.
  - rewrite (H y (or_introl eq_refl) Ef). cbn [orb]. lia.
  - cbn [orb]. destruct (g y); lia.
Qed.

Lemma ncovered_reserve m new :
  wf m -> new_ok m new -> ncovered (reserve m new) = ncovered m + zlen new.
Proof.
  intros W NO. unfold Map.ncovered. rewrite ncov_reserve.
  rewrite (zcount_ext (covered (reserve m new)) (fun c => covered m c || existsb (Z.eqb c) new)).
  - rewrite zcount_disjoint_or.
    + f_equal. apply zcount_members; [apply NoDup_zrange|apply NO|].
      intros c Hc. apply In_zrange. apply NO. exact Hc.
    + intros c Hc Hcov. destruct (existsb (Z.eqb c) new) eqn:E; [|reflexivity].
      apply existsb_eqb_In in E. destruct NO as [_ Hn]. destruct (Hn c E) as [_ Hf]. congruence.
  - intros c Hc. apply In_zrange in Hc. apply reserve_covered; assumption.
Qed.

Lemma zlen_reserve m new : zlen (sp (reserve m new)) = zlen (sp m) + Z.max 0 (zlen new * nfine m).
Proof. unfold Map.reserve; cbn [sp]. rewrite zlen_app, zlen_zrepeat. reflexivity. Qed.

Lemma reserve_wf m new : wf m -> new_ok m new -> wf (reserve m new).
Proof.
  intros W NO. pose proof (wf_nf m W) as Hnf. pose proof (wf_len m W) as Hlen.
  pose proof (ncovered_nonneg m) as Hk. pose proof (zlen_nonneg new) as Hnew.
  assert (Hmax : Z.max 0 (zlen new * nfine m) = zlen new * nfine m) by nia.
  constructor.
  - exact Hnf.
  - rewrite zlen_reserve, ncovered_reserve, Hmax by assumption.
    change (nfine (reserve m new)) with (nfine m). lia.
  - intros i Hi. change (nfine (reserve m new)) with (nfine m) in Hi.
    unfold Map.reserve; cbn [sp blank]. rewrite znth_app.
    destruct (i <? zlen (sp m)) eqn:E; [apply (wf_over m W); exact Hi|nia].
  - exact (wf_blank m W).
  - intros c Hc. rewrite ncov_reserve in Hc. rewrite zlen_reserve, Hmax.
    change (nfine (reserve m new)) with (nfine m).
    destruct (existsb (Z.eqb c) new) eqn:E.
    + apply existsb_eqb_In in E. destruct (In_pos new c E) as [k [Hkr Ek]]. subst c.
      rewrite reserve_off_new by assumption. right. split; [nia|]. split; [nia|].
      rewrite Hlen. rewrite <- Z.mul_add_distr_r. apply Z.mod_mul. lia.
    + assert (~ In c new) as Hn by (intro Hin; apply existsb_eqb_In in Hin; congruence).
      rewrite reserve_off_old by exact Hn.
      destruct (wf_off m W c Hc) as [H0|[H1 [H2 H3]]]; [left; exact H0|right]. split; [exact H1|]. split; [lia|exact H3].
  - intros c1 c2 H1 H2 Hc E. rewrite ncov_reserve in H1, H2.
    rewrite reserve_covered in Hc by assumption.
    destruct (existsb (Z.eqb c1) new) eqn:E1; destruct (existsb (Z.eqb c2) new) eqn:E2.
    + apply existsb_eqb_In in E1. apply existsb_eqb_In in E2.
      destruct (In_pos new c1 E1) as [k1 [Hk1 Ek1]]. destruct (In_pos new c2 E2) as [k2 [Hk2 Ek2]].
      subst c1 c2. rewrite !reserve_off_new in E by assumption.
      assert (k1 = k2) by nia. subst; reflexivity.
    + apply existsb_eqb_In in E1. destruct (In_pos new c1 E1) as [k1 [Hk1 Ek1]]. subst c1.
      assert (~ In c2 new) as Hn by (intro Hin; apply existsb_eqb_In in Hin; congruence).
      rewrite reserve_off_new in E by assumption. rewrite reserve_off_old in E by exact Hn.
      destruct (wf_off m W c2 H2) as [H0|[_ [Hb _]]]; nia.
    + apply existsb_eqb_In in E2. destruct (In_pos new c2 E2) as [k2 [Hk2 Ek2]]. subst c2.
      assert (~ In c1 new) as Hn by (intro Hin; apply existsb_eqb_In in Hin; congruence).
      rewrite reserve_off_new in E by assumption. rewrite reserve_off_old in E by exact Hn.
      destruct (wf_off m W c1 H1) as [H0|[_ [Hb _]]]; nia.
    + assert (~ In c1 new) as Hn1 by (intro Hin; apply existsb_eqb_In in Hin; congruence).
      assert (~ In c2 new) as Hn2 by (intro Hin; apply existsb_eqb_In in Hin; congruence).
      rewrite !reserve_off_old in E by assumption. rewrite orb_false_r in Hc.
      apply (wf_inj m W); assumption.
Qed.

Lemma npix_reserve m new : npix (reserve m new) = npix m.
Proof. unfold Map.npix. rewrite ncov_reserve. reflexivity. Qed.

(* growth changes no pixel value *)
Lemma reserve_read m new q :
  wf m -> new_ok m new -> 0 <= q < npix m -> read (reserve m new) q = read m q.
Proof.
  intros W NO Hq. pose proof (wf_nf m W) as Hnf.
  pose proof (covpix_range m q Hnf Hq) as Hr.
  pose proof (reserve_wf m new W NO) as W'.
  destruct (existsb (Z.eqb (q / nfine m)) new) eqn:E.
  - apply existsb_eqb_In in E. destruct NO as [ND Hn]. destruct (Hn _ E) as [_ Hunc].
    rewrite (read_uncovered m q W Hq Hunc).
    unfold Map.read. rewrite cell_eq by exact (wf_nf _ W').
    change (nfine (reserve m new)) with (nfine m).
    destruct (In_pos new _ E) as [k [Hk Ek]]. rewrite <- Ek.
    rewrite reserve_off_new by first [assumption | split; assumption].
    unfold Map.reserve; cbn [sp]. rewrite znth_app.
    pose proof (Z.mod_pos_bound q (nfine m) Hnf).
    destruct (zlen (sp m) + k * nfine m + q mod nfine m <? zlen (sp m)) eqn:E2; [nia|].
    rewrite znth_zrepeat.
    destruct ((0 <=? zlen (sp m) + k * nfine m + q mod nfine m - zlen (sp m)) &&
              (zlen (sp m) + k * nfine m + q mod nfine m - zlen (sp m) <? zlen new * nfine m)) eqn:E3; [|nia].
    apply (wf_over m W). lia.
  - assert (~ In (q / nfine m) new) as Hn by (intro Hin; apply existsb_eqb_In in Hin; congruence).
    unfold Map.read. rewrite !cell_eq by (try exact (wf_nf _ W'); exact Hnf).
    change (nfine (reserve m new)) with (nfine m).
    rewrite reserve_off_old by exact Hn.
    unfold Map.reserve; cbn [sp]. rewrite znth_app.
    pose proof (cell_range m q W Hq) as Hc. rewrite cell_eq in Hc by exact Hnf.
    destruct (off m (q / nfine m) + q mod nfine m <? zlen (sp m)) eqn:E2; [reflexivity|lia].
Qed.

End MapProofs.
