(* RangeProofs.v — pixel ranges: the pixels a range array contains, the coverage pixels the
   slice path reserves (a superset of the needed ones), and the slice-wise operation (C08). *)
From HS Require Import Prelude Cov Map Spec Ops Params AtFold MapProofs.

Lemma In_expand_ranges rows p :
  In p (expand_ranges rows) <-> exists r, In r rows /\ fst r <= p < snd r.
Proof.
  unfold expand_ranges. rewrite in_flat_map. split.
  - intros [r [Hr Hp]]. exists r. split; [exact Hr|]. apply In_zrange in Hp. exact Hp.
  - intros [r [Hr Hp]]. exists r. split; [exact Hr|]. apply In_zrange. exact Hp.
Qed.

(* every pixel of every range has its coverage pixel among those the slice path reserves *)
Theorem ranges_cov_superset nf ncv rows p :
  0 < nf -> In p (expand_ranges rows) -> 0 <= p < ncv * nf ->
  In (p / nf) (ranges_cov_pixels nf ncv rows).
Proof.
  intros Hnf Hin Hp. apply In_expand_ranges in Hin. destruct Hin as [r [Hr Hpr]].
  unfold ranges_cov_pixels. apply filter_In. split.
  - apply In_zrange. split; [apply Z.div_pos; lia|apply Z.div_lt_upper_bound; lia].
  - apply existsb_exists. exists r. split; [exact Hr|].
    unfold cov_lo, cov_hi.
    assert (fst r / nf <= p / nf) by (apply Z.div_le_mono; lia).
    assert (p / nf <= snd r / nf) by (apply Z.div_le_mono; lia).
    assert (p / nf < ncv) by (apply Z.div_lt_upper_bound; lia).
    destruct (snd r / nf =? ncv) eqn:E; lia.
Qed.

Section RangeOp.
Variable P : params.
Notation V := (p_V P).
Notation dv := (p_dv P).

Lemma znth_zsplice (l blk : list V) start i :
  0 <= start -> start + zlen blk <= zlen l ->
  znth dv (zsplice l start blk) i =
  if (start <=? i) && (i <? start + zlen blk) then znth dv blk (i - start) else znth dv l i.
Proof.
  intros Hs Hl. unfold zsplice. pose proof (zlen_nonneg blk) as Hb.
  rewrite znth_app, zlen_zfirstn.
  replace (Z.max 0 (Z.min start (zlen l))) with start by lia.
  destruct (i <? start) eqn:E1.
  - rewrite znth_zfirstn, E1.
    destruct ((start <=? i) && (i <? start + zlen blk)) eqn:E2; [lia|reflexivity].
  - rewrite znth_app.
    destruct (i - start <? zlen blk) eqn:E3.
    + destruct ((start <=? i) && (i <? start + zlen blk)) eqn:E2; [reflexivity|lia].
    + destruct ((start <=? i) && (i <? start + zlen blk)) eqn:E2; [lia|].
      rewrite znth_zskipn by lia. f_equal. lia.
Qed.

Lemma zlen_zsplice (l blk : list V) start :
  0 <= start -> start + zlen blk <= zlen l -> zlen (zsplice l start blk) = zlen l.
Proof.
  intros Hs Hl. unfold zsplice. rewrite !zlen_app, zlen_zfirstn, zlen_zskipn.
  pose proof (zlen_nonneg blk). lia.
Qed.

(* the element function of one slice-wise operation *)
Definition range_elem (o : uop) (value : V) (v : V) : V :=
  match o with
  | URepl => value
  | UAdd => p_vadd P (if p_sent_nonzero P && p_is_sent P v then p_vzero P else v) value
  | UOr => p_vor P v value
  | UAnd => p_vand P v value
  end.

(* _do_operation_on_sparse_map_range on [start, stop): exactly the cells of the slice change, each
   to the operation applied to its own old value *)
Theorem range_op_pointwise o value (s : list V) start stop i :
  0 <= start -> stop <= zlen s ->
  znth dv (range_op V (p_vadd P) (p_vor P) (p_vand P) (p_vzero P) (p_is_sent P) (p_sent_nonzero P) o value s start stop) i =
  if (start <=? i) && (i <? stop) then range_elem o value (znth dv s i) else znth dv s i.
Proof.
  intros Hs Hl. unfold range_op.
  destruct (start <? stop) eqn:E.
  - assert (Hlen : forall (g : V -> V), zlen (map g (zslice s start stop)) = stop - start).
    { intros g. rewrite zlen_map. unfold zslice. rewrite zlen_zfirstn, zlen_zskipn. lia. }
    assert (Hz : forall (g : V -> V) j, 0 <= j < stop - start ->
                 znth dv (map g (zslice s start stop)) j = g (znth dv s (start + j))).
    { intros g j Hj. rewrite (znth_map _ dv).
      - unfold zslice. rewrite znth_zfirstn. destruct (j <? stop - start) eqn:Ej; [|lia].
        rewrite znth_zskipn by lia. f_equal. f_equal. lia.
      - unfold zslice. rewrite zlen_zfirstn, zlen_zskipn. lia. }
    destruct o; rewrite znth_zsplice by (rewrite ?Hlen; lia); rewrite Hlen;
      (destruct ((start <=? i) && (i <? start + (stop - start))) eqn:E1;
       destruct ((start <=? i) && (i <? stop)) eqn:E2; try lia; try reflexivity);
      rewrite Hz by lia; replace (start + (i - start)) with i by lia; reflexivity.
  - destruct ((start <=? i) && (i <? stop)) eqn:E2; [lia|reflexivity].
Qed.

End RangeOp.
