(* Params.v — the element-level parameters every generic theorem is stated over, bundled so
   that lemmas depend on one section variable.  Nothing here is assumed about NumPy element
   arithmetic except [p_zns]: 0 is not the sentinel when the sentinel is non-zero. *)
From HS Require Import Prelude.

Record params := mkparams {
  p_V : Type;
  p_valid : p_V -> bool;        (* value != sentinel | primary != sentinel | any bit set *)
  p_dv : p_V;
  p_vadd : p_V -> p_V -> p_V;
  p_vor : p_V -> p_V -> p_V;
  p_vand : p_V -> p_V -> p_V;
  p_vzero : p_V;
  p_is_sent : p_V -> bool;
  p_sent_nonzero : bool;
  p_zns : p_sent_nonzero = true -> p_is_sent p_vzero = false
}.
