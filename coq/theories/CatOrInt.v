(* CatOrInt.v — or_overlap on zero-sentinel integer / wide-mask maps (C18): with cells = non-negative integers,
   validity = non-zero and | = Z.lor, the per-pixel result of the checked concatenation in or mode is simply the
   bitwise or of all the inputs valid there (the "intermediate equal to the sentinel" case cannot arise), and
   bit b of it is set iff it is set in some input. *)
From HS Require Import Prelude Cov Map Spec Ops Spec2 Params AtFold MapProofs UpdateProofs HistoryProofs
     LayoutProofs AccountProofs MultiRefine CatRefine CatCov CatChk CatChkProofs WideProofs WideMaps.

Lemma ostep_wide acc v : ostep wide_params true acc v = Z.lor acc v.
Proof.
  unfold ostep. cbn [p_valid p_vor wide_params andb].
  destruct (acc =? 0) eqn:E; cbn [negb].
  - apply Z.eqb_eq in E. subst acc. rewrite Z.lor_0_l. reflexivity.
  - apply Z.lor_comm.
Qed.

Lemma fold_ostep_wide (vs : list Z) : forall acc,
  fold_left (ostep wide_params true) vs acc = fold_left Z.lor vs acc.
Proof. induction vs as [|v r IH]; intros acc; cbn [fold_left]; [reflexivity|]. rewrite ostep_wide. apply IH. Qed.

Theorem or_overlap_is_bitwise_or (N ncv nf : Z) (inputs : list (smap Z)) out :
  0 <= ncv -> 0 < nf -> N = ncv * nf ->
  (forall m, In m inputs -> okin wide_params N m /\ nested wide_params nf m) ->
  cat_chk Z (fun v => negb (v =? 0)) 0 Z.add Z.lor Z.land 0 (fun v => v =? 0) false
          true true ncv nf 0 inputs (cat_cov_pix Z (fun v => negb (v =? 0)) 0 ncv nf inputs) = Some out ->
  forall q b, 0 <= q < N ->
    Z.testbit (read Z 0 out q) b = existsb (fun v => Z.testbit v b) (cvals wide_params inputs q).
Proof.
  intros Hn Hf EN Hok E q b Hq.
  pose proof (cat_checked_routine_spec wide_params N true true ncv nf 0 inputs Hn Hf EN eq_refl Hok) as H.
  cbn [p_V p_valid p_dv p_vadd p_vor p_vand p_vzero p_is_sent p_sent_nonzero wide_params] in H.
  rewrite E in H. destruct H as [_ [_ [_ [R _]]]].
  rewrite (R q Hq). rewrite fold_ostep_wide. rewrite testbit_fold_lor_vals. rewrite Z.bits_0. reflexivity.
Qed.
