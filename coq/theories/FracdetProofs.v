(* FracdetProofs.v — the fractional-detection map and the coverage-fraction map count exactly the
   valid children of every (coarse / coverage) pixel, for every block order (C02, C15). *)
From HS Require Import Prelude Cov Map Spec Ops Spec2 Params AtFold MapProofs UpdateProofs HistoryProofs
     LayoutProofs AccountProofs OpsProofs RebuildProofs.

Lemma zrange_nat_shift a n : zrange_nat a n = map (Z.add a) (zrange_nat 0 n).
Proof.
  revert a. induction n as [|n IH]; intros a; cbn [zrange_nat map]; [reflexivity|].
  f_equal; [lia|]. rewrite (IH (a + 1)), (IH (0 + 1)), map_map. apply map_ext. intros x. lia.
Qed.

Lemma zrange_shift a b : zrange a b = map (Z.add a) (zrange 0 (b - a)).
Proof. unfold zrange. rewrite Z.sub_0_r. apply zrange_nat_shift. Qed.

Lemma zcount_zrange_shift (f : Z -> bool) a b :
  zcount f (zrange a b) = zcount (fun t => f (a + t)) (zrange 0 (b - a)).
Proof. rewrite zrange_shift, zcount_map. reflexivity. Qed.

(* the cell type of a fracdet map: the numerator (number of valid children); valid iff > 0 *)
Definition count_params : params.
Proof.
  refine (mkparams Z (fun c => 0 <? c) 0 Z.add Z.lor Z.land 0 (fun c => c =? 0) false _).
  intros H. discriminate.
Defined.

Section Fracdet.
Variable P : params.
Notation V := (p_V P).
Notation valid := (p_valid P).
Notation dv := (p_dv P).

(* fracdet_map(nside) with r = nfine_per_frac fine pixels per coarse pixel: numerators *)
Definition fracdet_map (m : smap V) (r : Z) : smap Z :=
  mkmap (nfine m / r) (fracdet_idx V m r) (group_counts V valid m r) 0 None.

(* a slice of a covered block counts the valid pixels it stores *)
Lemma zcount_slice_reads (m : smap V) a n c :
  wf P m -> 0 <= c < ncov V m -> covered V m c = true -> 0 <= a -> a + n <= nfine m -> 0 <= n ->
  zcount valid (zslice (sp m) (off V m c + a) (off V m c + a + n)) =
  zcount (fun p => valid (read V dv m p)) (zrange (c * nfine m + a) (c * nfine m + a + n)).
Proof.
  intros W Hc Hcov Ha Han Hn. pose proof (wf_nf P m W) as Hnf.
  apply covered_iff in Hcov.
  destruct (wf_off P m W c Hc) as [H0|[H1 [H2 H3]]]; [lia|].
  rewrite (zslice_map_znth dv) by lia. rewrite zcount_map.
  rewrite (zcount_zrange_shift _ (off V m c + a)), (zcount_zrange_shift _ (c * nfine m + a)).
  replace (off V m c + a + n - (off V m c + a)) with n by lia.
  replace (c * nfine m + a + n - (c * nfine m + a)) with n by lia.
  apply zcount_ext. intros t Ht. apply In_zrange in Ht.
  unfold Map.read. rewrite (cell_eq P) by exact Hnf.
  replace ((c * nfine m + a + t) / nfine m) with c.
  - replace ((c * nfine m + a + t) mod nfine m) with (a + t); [f_equal; f_equal; lia|].
    symmetry. replace (c * nfine m + a + t) with ((a + t) + c * nfine m) by lia.
    rewrite Z.mod_add by lia. apply Z.mod_small. lia.
  - symmetry. replace (c * nfine m + a + t) with ((a + t) + c * nfine m) by lia.
    rewrite Z.div_add by lia. rewrite Z.div_small by lia. lia.
Qed.

(* an uncovered coverage pixel holds no valid pixel *)
Lemma zcount_uncovered (m : smap V) c a n :
  wf P m -> 0 <= c < ncov V m -> covered V m c = false -> 0 <= a -> a + n <= nfine m ->
  zcount (fun p => valid (read V dv m p)) (zrange (c * nfine m + a) (c * nfine m + a + n)) = 0.
Proof.
  intros W Hc Hcov Ha Han. pose proof (wf_nf P m W) as Hnf.
  apply zcount_false. intros p Hp. apply In_zrange in Hp.
  assert (Hpr : 0 <= p < npix V m) by (unfold Map.npix; nia).
  assert (Epc : p / nfine m = c).
  { symmetry. apply Z.div_unique with (p - c * nfine m); lia. }
  rewrite (read_uncovered P m p W Hpr) by (rewrite Epc; exact Hcov). exact (wf_blank P m W).
Qed.

(* the overflow block holds no valid cell *)
Lemma zcount_overflow (m : smap V) a n :
  wf P m -> 0 <= a -> a + n <= nfine m -> zcount valid (zslice (sp m) a (a + n)) = 0.
Proof.
  intros W Ha Han. pose proof (wf_nf P m W) as Hnf. pose proof (wf_len_ge P m W) as Hl.
  destruct (Z_le_dec 0 n) as [Hn|Hn].
  - rewrite (zslice_map_znth dv) by lia. rewrite zcount_map. apply zcount_false.
    intros t Ht. apply In_zrange in Ht. rewrite (wf_over P m W) by lia. exact (wf_blank P m W).
  - unfold zslice. replace (a + n - a) with n by lia.
    assert (E : zfirstn n (zskipn a (sp m)) = []).
    { destruct (zskipn a (sp m)) as [|x t]; cbn [zfirstn]; [reflexivity|]. destruct (n <=? 0) eqn:E; [reflexivity|lia]. }
    rewrite E. reflexivity.
Qed.

Theorem fracdet_wf (m : smap V) r :
  wf P m -> 0 < r -> nfine m mod r = 0 -> wf count_params (fracdet_map m r).
Proof.
  intros W Hr Hdiv. pose proof (wf_nf P m W) as Hnf.
  apply Z.mod_divide in Hdiv; [|lia]. destruct Hdiv as [nf' Enf].
  assert (Hn' : 0 < nf') by nia.
  unfold fracdet_map. rewrite Enf, Z.div_mul by lia.
  change (fracdet_idx V m r) with (rebuild_idx V m (nfine m / r)). rewrite Enf, Z.div_mul by lia.
  apply (built_wf P count_params); try assumption; try reflexivity.
  - unfold group_counts. rewrite zlen_map, zlen_zrange, (wf_len P m W), Enf.
    replace ((ncovered V m + 1) * (nf' * r)) with ((ncovered V m + 1) * nf' * r) by lia.
    rewrite Z.div_mul by lia. pose proof (ncovered_nonneg P m). nia.
  - intros i Hi. unfold group_counts.
    assert (Hg : 0 <= i < zlen (sp m) / r).
    { rewrite (wf_len P m W), Enf.
      replace ((ncovered V m + 1) * (nf' * r)) with ((ncovered V m + 1) * nf' * r) by lia.
      rewrite Z.div_mul by lia. pose proof (ncovered_nonneg P m). nia. }
    rewrite (znth_map _ 0) by (rewrite zlen_zrange; lia). rewrite znth_zrange by lia. rewrite Z.add_0_l.
    replace ((i + 1) * r) with (i * r + r) by lia. apply zcount_overflow; [exact W|nia|rewrite Enf; nia].
Qed.

(* fracdet_map(n)[q] * children = number of valid children of q (valid iff > 0), any block order *)
Theorem fracdet_read (m : smap V) r q :
  wf P m -> 0 < r -> nfine m mod r = 0 -> 0 <= q < npix V m / r ->
  read Z 0 (fracdet_map m r) q = d_group_count V valid dv (abs V dv m) r q.
Proof.
  intros W Hr Hdiv Hq. pose proof (wf_nf P m W) as Hnf.
  apply Z.mod_divide in Hdiv; [|lia]. destruct Hdiv as [nf' Enf].
  assert (Hn' : 0 < nf') by nia.
  assert (Enp : npix V m / r = ncov V m * nf').
  { unfold Map.npix. rewrite Enf. replace (ncov V m * (nf' * r)) with (ncov V m * nf' * r) by lia.
    apply Z.div_mul. lia. }
  rewrite Enp in Hq.
  (* right-hand side: reads of the dense abstraction are reads of the map *)
  assert (Erhs : d_group_count V valid dv (abs V dv m) r q =
                 zcount (fun p => valid (read V dv m p)) (zrange (q * r) ((q + 1) * r))).
  { unfold Spec.d_group_count. apply zcount_ext. intros p Hp. apply In_zrange in Hp.
    unfold Spec.d_read, Spec.abs. cbn [dense].
    assert (Hpr : 0 <= p < npix V m) by (unfold Map.npix; rewrite Enf; nia).
    rewrite (znth_map _ 0) by (rewrite zlen_zrange; lia). rewrite znth_zrange by lia. rewrite Z.add_0_l. reflexivity. }
  rewrite Erhs. clear Erhs.
  unfold fracdet_map. unfold Map.read at 1.
  change (fracdet_idx V m r) with (rebuild_idx V m (nfine m / r)). rewrite Enf, Z.div_mul by lia.
  pose proof (built_cell P count_params m nf' (group_counts V valid m r) 0 q W Hn' Hq) as Ecell.
  unfold built in Ecell. change (p_V count_params) with Z in Ecell. rewrite Ecell. clear Ecell. cbn [sp].
  set (c := q / nf').
  assert (Hc : 0 <= c < ncov V m).
  { split; [apply Z.div_pos; lia|apply Z.div_lt_upper_bound; lia]. }
  pose proof (Z.mod_pos_bound q nf' Hn') as Hm.
  assert (Eq : q * r = c * nfine m + (q mod nf') * r).
  { rewrite Enf. unfold c. pose proof (Z.div_mod q nf'). nia. }
  replace ((q + 1) * r) with (c * nfine m + (q mod nf') * r + r) by lia. rewrite Eq.
  unfold group_counts.
  destruct (covered V m c) eqn:Hcov.
  - destruct (block_of_covered P m c W Hc Hcov) as [Hb Eo].
    set (b := off V m c / nfine m) in *.
    assert (Hg : 0 <= b * nf' + q mod nf' < zlen (sp m) / r).
    { rewrite (wf_len P m W), Enf.
      replace ((ncovered V m + 1) * (nf' * r)) with ((ncovered V m + 1) * nf' * r) by lia.
      rewrite Z.div_mul by lia. nia. }
    rewrite (znth_map _ 0) by (rewrite zlen_zrange; lia). rewrite znth_zrange by lia. rewrite Z.add_0_l.
    replace ((b * nf' + q mod nf') * r) with (off V m c + (q mod nf') * r) by (rewrite Eo, Enf; lia).
    replace ((b * nf' + q mod nf' + 1) * r) with (off V m c + (q mod nf') * r + r) by (rewrite Eo, Enf; lia).
    apply zcount_slice_reads; try assumption; try lia; rewrite ?Enf; nia.
  - apply covered_false_iff in Hcov.
    destruct (wf_off P m W c Hc) as [H0|[H1 _]]; [|lia].
    rewrite H0, Z.div_0_l by lia.
    assert (Hg : 0 <= 0 * nf' + q mod nf' < zlen (sp m) / r).
    { rewrite (wf_len P m W), Enf.
      replace ((ncovered V m + 1) * (nf' * r)) with ((ncovered V m + 1) * nf' * r) by lia.
      rewrite Z.div_mul by lia. pose proof (ncovered_nonneg P m). nia. }
    rewrite (znth_map _ 0) by (rewrite zlen_zrange; lia). rewrite znth_zrange by lia. rewrite Z.add_0_l.
    replace ((0 * nf' + q mod nf' + 1) * r) with ((0 * nf' + q mod nf') * r + r) by lia.
    rewrite zcount_overflow by (try exact W; rewrite ?Enf; nia).
    symmetry. apply zcount_uncovered; try assumption; try nia;
      try (apply covered_false_iff; lia); try (rewrite Enf; nia).
Qed.

End Fracdet.

(* ---------------- coverage_map ---------------- *)
Lemma zlen_assign_counts (b2c counts : list Z) : forall (cov : list Z),
  zlen (assign_counts cov b2c counts) = zlen cov.
Proof.
  revert counts. induction b2c as [|c r IH]; intros counts cov; cbn [assign_counts]; [reflexivity|].
  destruct counts as [|n t]; [reflexivity|]. rewrite IH, zlen_zupd. reflexivity.
Qed.

Lemma assign_counts_other (b2c counts : list Z) : forall (cov : list Z) c,
  ~ In c b2c -> znth 0 (assign_counts cov b2c counts) c = znth 0 cov c.
Proof.
  revert counts. induction b2c as [|x r IH]; intros counts cov c Hn; cbn [assign_counts]; [reflexivity|].
  destruct counts as [|n t]; [reflexivity|].
  rewrite IH by (intro; apply Hn; right; assumption).
  apply znth_zupd_other. intro; apply Hn; left; assumption.
Qed.

Lemma assign_counts_at (b2c counts : list Z) : forall (cov : list Z) j,
  NoDup b2c -> 0 <= j < zlen b2c -> zlen b2c <= zlen counts -> (forall c, In c b2c -> 0 <= c < zlen cov) ->
  znth 0 (assign_counts cov b2c counts) (znth 0 b2c j) = znth 0 counts j.
Proof.
  revert counts. induction b2c as [|x r IH]; intros counts cov j ND Hj Hl Hr.
  - rewrite zlen_nil in Hj. lia.
  - rewrite zlen_cons in Hj, Hl. inversion ND as [|? ? Hnin ND']; subst.
    destruct counts as [|n t]; [rewrite zlen_nil in Hl; pose proof (zlen_nonneg r); lia|].
    rewrite zlen_cons in Hl. cbn [assign_counts]. rewrite !znth_cons.
    destruct (j =? 0) eqn:E.
    + rewrite assign_counts_other by exact Hnin. apply znth_zupd_same. apply Hr. left; reflexivity.
    + apply IH; try assumption; try lia.
      intros c Hc. rewrite zlen_zupd. apply Hr. right; exact Hc.
Qed.

Section CoverageMap.
Variable P : params.
Notation V := (p_V P).
Notation valid := (p_valid P).
Notation dv := (p_dv P).

(* coverage_map[c] * nfine = number of valid pixels in coverage pixel c, for every block order *)
Theorem coverage_counts_spec (m : smap V) c :
  wf P m -> 0 <= c < ncov V m ->
  znth 0 (coverage_counts V valid m) c = d_cov_count V valid dv (abs V dv m) c.
Proof.
  intros W Hc. pose proof (wf_nf P m W) as Hnf.
  assert (Erhs : d_cov_count V valid dv (abs V dv m) c =
                 zcount (fun p => valid (read V dv m p)) (zrange (c * nfine m) ((c + 1) * nfine m))).
  { unfold Spec.d_cov_count. cbn [Spec.abs d_nfine]. apply zcount_ext. intros p Hp. apply In_zrange in Hp.
    unfold Spec.d_read, Spec.abs. cbn [dense].
    assert (Hpr : 0 <= p < npix V m) by (unfold Map.npix; nia).
    rewrite (znth_map _ 0) by (rewrite zlen_zrange; lia). rewrite znth_zrange by lia. rewrite Z.add_0_l. reflexivity. }
  rewrite Erhs. clear Erhs.
  unfold coverage_counts. fold (b2c P m).
  assert (Hnb : nblocks V m = ncovered V m + 1).
  { unfold nblocks. rewrite (wf_len P m W). apply Z.div_mul. lia. }
  assert (Hlenbc : zlen (block_counts V valid m) = ncovered V m + 1).
  { unfold block_counts. rewrite zlen_map, zlen_zrange, Hnb. pose proof (ncovered_nonneg P m). lia. }
  assert (Htl : forall j, 0 <= j < ncovered V m ->
                znth 0 (tl (block_counts V valid m)) j = block_count V valid m (j + 1)).
  { intros j Hj. unfold block_counts. rewrite Hnb.
    assert (E : zrange 0 (ncovered V m + 1) = 0 :: zrange 1 (ncovered V m + 1)).
    { unfold zrange. replace (Z.to_nat (ncovered V m + 1 - 0)) with (S (Z.to_nat (ncovered V m + 1 - 1))) by lia.
      reflexivity. }
    rewrite E. cbn [map tl]. rewrite (znth_map _ 0) by (rewrite zlen_zrange; lia).
    rewrite znth_zrange by lia. f_equal. lia. }
  assert (Hltl : zlen (tl (block_counts V valid m)) = ncovered V m).
  { destruct (block_counts V valid m) as [|x t] eqn:E.
    - rewrite zlen_nil in Hlenbc. pose proof (ncovered_nonneg P m). lia.
    - cbn [tl]. rewrite zlen_cons in Hlenbc. lia. }
  destruct (covered V m c) eqn:Hcov.
  - destruct (block_of_covered P m c W Hc Hcov) as [Hb Eo].
    pose proof (b2c_inverts P m c W Hc Hcov) as Einv.
    rewrite <- Einv at 1.
    rewrite assign_counts_at.
    + rewrite Htl by lia. unfold block_count.
      replace (off V m c / nfine m - 1 + 1) with (off V m c / nfine m) by lia.
      replace (off V m c / nfine m * nfine m) with (off V m c + 0) by lia.
      replace ((off V m c / nfine m + 1) * nfine m) with (off V m c + 0 + nfine m) by lia.
      replace (c * nfine m) with (c * nfine m + 0) by lia.
      replace ((c + 1) * nfine m) with (c * nfine m + 0 + nfine m) by lia.
      apply zcount_slice_reads; try assumption; lia.
    + apply (b2c_NoDup P). exact W.
    + rewrite (zlen_b2c P). lia.
    + rewrite (zlen_b2c P), Hltl. lia.
    + intros x Hx. apply (In_b2c P) in Hx. rewrite zlen_zrepeat. unfold Map.ncov in *. lia.
  - rewrite assign_counts_other.
    + rewrite znth_zrepeat. destruct ((0 <=? c) && (c <? ncov V m)) eqn:E; [|lia].
      symmetry. replace (c * nfine m) with (c * nfine m + 0) by lia.
      replace ((c + 1) * nfine m) with (c * nfine m + 0 + nfine m) by lia.
      apply zcount_uncovered; try assumption; lia.
    + intro Hin. apply (In_b2c P) in Hin. destruct Hin as [_ Hin]. congruence.
Qed.

End CoverageMap.
