(* Driver for the extracted model: one operation per input line, one result per output line.
   Line format: integer groups separated by ';', integers separated by blanks.
   A line "R" resets the world (start of a new history). *)
open Model

let rec pos_of_int (n : int) : positive =
  if n = 1 then XH
  else if n land 1 = 0 then XO (pos_of_int (n lsr 1))
  else XI (pos_of_int (n lsr 1))

let z_of_int (n : int) : z =
  if n = 0 then Z0 else if n > 0 then Zpos (pos_of_int n) else Zneg (pos_of_int (-n))

let ten = z_of_int 10

let z_of_string (s : string) : z =
  let len = String.length s in
  if len <= 17 then z_of_int (int_of_string s)
  else begin
    let neg = s.[0] = '-' in
    let acc = ref Z0 in
    for i = (if neg then 1 else 0) to len - 1 do
      acc := Z.add (Z.mul !acc ten) (z_of_int (Char.code s.[i] - 48))
    done;
    if neg then Z.opp !acc else !acc
  end

let rec int_of_pos (p : positive) (depth : int) : int option =
  if depth > 60 then None else
  match p with
  | XH -> Some 1
  | XO q -> (match int_of_pos q (depth + 1) with Some v -> Some (2 * v) | None -> None)
  | XI q -> (match int_of_pos q (depth + 1) with Some v -> Some (2 * v + 1) | None -> None)

let rec string_of_pos_big (p : z) : string =
  (* p > 0 *)
  let (q, r) = Z.div_eucl p ten in
  let d = (match r with Z0 -> 0 | Zpos x -> (match int_of_pos x 0 with Some v -> v | None -> 0) | Zneg _ -> 0) in
  (match q with Z0 -> "" | _ -> string_of_pos_big q) ^ string_of_int d

let string_of_z (x : z) : string =
  match x with
  | Z0 -> "0"
  | Zpos p -> (match int_of_pos p 0 with Some v -> string_of_int v | None -> string_of_pos_big x)
  | Zneg p -> (match int_of_pos p 0 with Some v -> string_of_int (-v) | None -> "-" ^ string_of_pos_big (Zpos p))

let parse_group (g : string) : z list =
  String.split_on_char ' ' g |> List.filter (fun t -> t <> "") |> List.map z_of_string

let parse_line (l : string) : z list list =
  String.split_on_char ';' l |> List.map parse_group

let print_result (r : z list list) : unit =
  let b = Buffer.create 256 in
  List.iteri (fun i g ->
    if i > 0 then Buffer.add_char b ';';
    List.iteri (fun j x -> if j > 0 then Buffer.add_char b ' '; Buffer.add_string b (string_of_z x)) g) r;
  Buffer.add_char b '\n';
  print_string (Buffer.contents b)

let () =
  let w = ref [] in
  (try
    while true do
      let l = input_line stdin in
      if l = "R" then begin w := []; print_string "R\n" end
      else begin
        let (w', out) = step_top2 !w (parse_line l) in
        w := w';
        print_result out
      end
    done
  with End_of_file -> ());
  flush stdout
